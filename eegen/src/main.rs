//! eegen: scans the crate's source (syn) and prints, as JSON, the facts the Lean obligations are
//! stated over: lock sites with what is called while each guard is alive, global mutable state,
//! the intra-crate call graph with the registry writers, public entry points and whether they
//! initialise first, descriptor key constructors, numeric constants.
//! Items under #[cfg(test)] or the verification cfg are skipped. Unrecognised shapes are
//! reported as "unknown" rather than guessed.
use quote::ToTokens;
use std::collections::{BTreeMap, BTreeSet};
use syn::spanned::Spanned;
use syn::visit::{self, Visit};

// Methods of std collections / Option / Result / iterators / strings. A closure passed to one of them is still visited,
// so a handler call or a crate function call inside it is reported as such (`other`), whatever adaptor carries it.
const STD_METHODS: &[&str] = &[
    "lock", "unwrap", "get", "insert", "iter", "is_some", "is_none", "clone", "len", "to_string", "push",
    "sort_by", "cmp", "is_err", "is_ok", "into", "as_str", "contains_key",
    "cloned", "copied", "map", "map_or", "map_or_else", "and_then", "or_else", "ok_or", "ok_or_else", "unwrap_or", "unwrap_or_else",
    "unwrap_or_default", "expect", "ok", "err", "keys", "values", "collect", "sort", "sort_by_key", "sort_unstable", "sort_unstable_by",
    "filter", "filter_map", "any", "all", "find", "position", "contains", "is_empty", "to_owned", "as_ref", "as_deref", "into_iter",
    "enumerate", "zip", "rev", "last", "first", "chars", "eq", "ne", "to_vec", "count", "min", "max", "fold", "for_each", "take", "skip",
    "starts_with", "ends_with", "as_bytes", "borrow", "deref", "flatten", "chain", "partial_cmp",
];
const STD_PATHS: &[&str] = &["Vec::new", "String::from", "HashMap::new", "Mutex::new", "String::new",
    // fully qualified forms of std methods, and releasing a value
    "Arc::clone", "Rc::clone", "Clone::clone", "Arc::new", "Box::new", "Vec::with_capacity", "HashMap::with_capacity", "Default::default",
    "ToString::to_string", "ToOwned::to_owned", "drop", "mem::drop", "std::mem::drop", "Option::is_some", "Option::is_none", "Option::cloned"];

/// `drop(<ident>);` (also `mem::drop`, `std::mem::drop`) as a statement of its own: the named guard ends here.
fn is_drop_of(stmt: &syn::Stmt, ident: &str) -> bool {
    if let syn::Stmt::Expr(syn::Expr::Call(c), _) = stmt {
        let callee = norm(&c.func);
        if ["drop", "mem::drop", "std::mem::drop"].contains(&callee.as_str()) && c.args.len() == 1 {
            return norm(&c.args[0]) == ident;
        }
    }
    false
}
const MUTATORS: &[&str] = &["insert", "remove", "clear", "entry", "retain", "drain", "extend", "get_mut", "iter_mut", "values_mut"];

fn skip_attrs(attrs: &[syn::Attribute]) -> bool {
    attrs.iter().any(|a| {
        a.path().is_ident("cfg") && {
            let s = a.meta.to_token_stream().to_string();
            (s.contains("test") && !s.contains("not")) || s.contains("ashyanspada_expression_engine_rs_verif")
        }
    })
}

fn json_str(s: &str) -> String {
    let mut o = String::from("\"");
    for c in s.chars() {
        match c {
            '"' => o.push_str("\\\""),
            '\\' => o.push_str("\\\\"),
            '\n' => o.push_str("\\n"),
            c if (c as u32) < 32 => o.push_str(&format!("\\u{:04x}", c as u32)),
            c => o.push(c),
        }
    }
    o.push('"');
    o
}

fn norm(ts: impl ToTokens) -> String {
    ts.to_token_stream().to_string().replace(' ', "")
}

#[derive(Default)]
struct LockSite {
    file: String,
    func: String,
    line: usize,
    store: String,
    kind: String,
    calls: Vec<String>,
    other_calls: Vec<String>,
    nested_locks: usize,
    mutates: bool,
}

/// Collects every call inside an expression/statement range.
#[derive(Default)]
struct CallCollector {
    calls: Vec<String>,
    other: Vec<String>,
    locks: usize,
    mutates: bool,
}

impl<'ast> Visit<'ast> for CallCollector {
    fn visit_expr_method_call(&mut self, m: &'ast syn::ExprMethodCall) {
        let name = m.method.to_string();
        if name == "lock" {
            self.locks += 1;
        }
        if MUTATORS.contains(&name.as_str()) {
            self.mutates = true;
        }
        self.calls.push(format!(".{}", name));
        if !STD_METHODS.contains(&name.as_str()) && !MUTATORS.contains(&name.as_str()) {
            self.other.push(format!(".{}", name));
        }
        visit::visit_expr_method_call(self, m);
    }
    fn visit_expr_call(&mut self, c: &'ast syn::ExprCall) {
        let callee = norm(&c.func);
        self.calls.push(callee.clone());
        let last = callee.rsplit("::").next().unwrap_or("").to_string();
        let is_ctor = last.chars().next().map(|ch| ch.is_uppercase()).unwrap_or(false)
            && matches!(&*c.func, syn::Expr::Path(_));
        if !is_ctor && !STD_PATHS.contains(&callee.as_str()) {
            self.other.push(callee);
        }
        visit::visit_expr_call(self, c);
    }
    fn visit_macro(&mut self, m: &'ast syn::Macro) {
        let n = norm(&m.path);
        self.calls.push(format!("{}!", n));
        if !["vec", "format", "write", "writeln", "matches", "assert", "assert_eq", "debug_assert", "debug_assert_eq", "unreachable"].contains(&n.as_str()) {
            self.other.push(format!("{}!", n));
        }
    }
}

fn peel_lock(e: &syn::Expr) -> Option<&syn::ExprMethodCall> {
    // X.lock() possibly followed by .unwrap() / ?
    match e {
        syn::Expr::MethodCall(m) if m.method == "lock" => Some(m),
        syn::Expr::MethodCall(m) if m.method == "unwrap" || m.method == "expect" => peel_lock(&m.receiver),
        syn::Expr::Try(t) => peel_lock(&t.expr),
        syn::Expr::Paren(p) => peel_lock(&p.expr),
        _ => None,
    }
}

fn contains_lock(ts: &impl ToTokens) -> bool {
    let s = norm(ts);
    s.contains(".lock()")
}

#[derive(Default)]
struct FnInfo {
    file: String,
    name: String,
    owner: String,
    is_pub: bool,
    callees: Vec<(String, String)>, // (kind: "path"|"method"|"selfmethod", name)
    first_call: Option<String>,
    lock_sites: usize,
    writer_of: Vec<String>,
}

struct Scanner {
    file: String,
    owner: Vec<String>,
    func: Vec<String>,
    sites: Vec<LockSite>,
    fns: Vec<FnInfo>,
    globals: Vec<(String, String, String, String, bool)>, // file, container, name, type, mutable
    unsafe_count: usize,
    macros: Vec<(String, String)>,
    consts: Vec<(String, String, String)>,
    desc: Vec<(String, String, Vec<String>, Vec<String>)>, // fn name, kind (set/get), DescriptorKey ctors, Descriptor variants
}

impl Scanner {
    fn cur_fn(&self) -> String {
        let mut s = self.owner.join("::");
        if !s.is_empty() && !self.func.is_empty() {
            s.push_str("::");
        }
        s.push_str(&self.func.join("::"));
        s
    }

    fn scan_block_for_locks(&mut self, block: &syn::Block) {
        for (i, stmt) in block.stmts.iter().enumerate() {
            match stmt {
                syn::Stmt::Local(l) => {
                    if let Some(init) = &l.init {
                        if let Some(m) = peel_lock(&init.expr) {
                            // named guard: alive for the rest of the block, or up to an explicit `drop(guard);` in this block
                            let guard = match &l.pat {
                                syn::Pat::Ident(pi) => pi.ident.to_string(),
                                _ => String::new(),
                            };
                            let mut cc = CallCollector::default();
                            for later in &block.stmts[i + 1..] {
                                if !guard.is_empty() && is_drop_of(later, &guard) {
                                    break;
                                }
                                cc.visit_stmt(later);
                            }
                            self.push_site(m, "let", cc);
                            continue;
                        }
                        if contains_lock(&init.expr) {
                            // temporary guard inside the initialiser: alive for this statement
                            self.temp_sites(stmt);
                        }
                    }
                }
                _ => {
                    if contains_lock(stmt) {
                        self.temp_sites(stmt);
                    }
                }
            }
        }
    }

    fn temp_sites(&mut self, stmt: &syn::Stmt) {
        // every .lock() in the statement that is not bound by an inner `let` (inner blocks are scanned separately)
        struct Finder<'a> {
            found: Vec<&'a syn::ExprMethodCall>,
        }
        impl<'a> Visit<'a> for Finder<'a> {
            fn visit_expr_method_call(&mut self, m: &'a syn::ExprMethodCall) {
                if m.method == "lock" {
                    self.found.push(m);
                }
                visit::visit_expr_method_call(self, m);
            }
            fn visit_block(&mut self, _b: &'a syn::Block) {}
            fn visit_expr_closure(&mut self, _c: &'a syn::ExprClosure) {}
        }
        let mut f = Finder { found: vec![] };
        f.visit_stmt(stmt);
        for m in f.found {
            let mut cc = CallCollector::default();
            cc.visit_stmt(stmt);
            cc.locks = cc.locks.saturating_sub(1);
            self.push_site(m, "temp", cc);
        }
    }

    fn push_site(&mut self, m: &syn::ExprMethodCall, kind: &str, cc: CallCollector) {
        let nested = if kind == "let" { cc.locks } else { cc.locks };
        self.sites.push(LockSite {
            file: self.file.clone(),
            func: self.cur_fn(),
            line: m.span().start().line,
            store: norm(&m.receiver),
            kind: kind.to_string(),
            calls: cc.calls,
            other_calls: cc.other,
            nested_locks: nested,
            mutates: cc.mutates,
        });
        if let Some(f) = self.fns.last_mut() {
            f.lock_sites += 1;
            if cc_mutates(&self.sites.last().unwrap()) {
                f.writer_of.push(self.sites.last().unwrap().store.clone());
            }
        }
    }
}

fn cc_mutates(s: &LockSite) -> bool {
    s.mutates
}

struct CalleeCollector {
    out: Vec<(String, String)>,
}
impl<'ast> Visit<'ast> for CalleeCollector {
    fn visit_expr_method_call(&mut self, m: &'ast syn::ExprMethodCall) {
        let on_self = matches!(&*m.receiver, syn::Expr::Path(p) if p.path.is_ident("self"));
        self.out.push((if on_self { "selfmethod" } else { "method" }.to_string(), m.method.to_string()));
        visit::visit_expr_method_call(self, m);
    }
    fn visit_expr_call(&mut self, c: &'ast syn::ExprCall) {
        if let syn::Expr::Path(p) = &*c.func {
            self.out.push(("path".to_string(), norm(&p.path)));
        } else {
            self.out.push(("value".to_string(), norm(&c.func)));
        }
        visit::visit_expr_call(self, c);
    }
}

impl<'ast> Visit<'ast> for Scanner {
    fn visit_item_mod(&mut self, m: &'ast syn::ItemMod) {
        if skip_attrs(&m.attrs) {
            return;
        }
        visit::visit_item_mod(self, m);
    }
    fn visit_item_impl(&mut self, i: &'ast syn::ItemImpl) {
        if skip_attrs(&i.attrs) {
            return;
        }
        if i.unsafety.is_some() {
            self.unsafe_count += 1;
        }
        self.owner.push(norm(&i.self_ty).split('<').next().unwrap().to_string());
        visit::visit_item_impl(self, i);
        self.owner.pop();
    }
    fn visit_item_fn(&mut self, f: &'ast syn::ItemFn) {
        if skip_attrs(&f.attrs) {
            return;
        }
        if f.sig.unsafety.is_some() {
            self.unsafe_count += 1;
        }
        self.enter_fn(&f.sig.ident.to_string(), matches!(f.vis, syn::Visibility::Public(_)), &f.block);
        visit::visit_item_fn(self, f);
        self.func.pop();
    }
    fn visit_impl_item_fn(&mut self, f: &'ast syn::ImplItemFn) {
        if skip_attrs(&f.attrs) {
            return;
        }
        if f.sig.unsafety.is_some() {
            self.unsafe_count += 1;
        }
        self.enter_fn(&f.sig.ident.to_string(), matches!(f.vis, syn::Visibility::Public(_)), &f.block);
        let name = f.sig.ident.to_string();
        if self.file.ends_with("descriptor.rs") && (name.starts_with("set_") || name.starts_with("get_")) && name.ends_with("_descriptor") {
            let body = norm(&f.block);
            let grab = |prefix: &str| -> Vec<String> {
                let mut v = vec![];
                let mut rest = body.as_str();
                while let Some(i) = rest.find(prefix) {
                    let tail = &rest[i + prefix.len()..];
                    let id: String = tail.chars().take_while(|c| c.is_alphanumeric() || *c == '_').collect();
                    v.push(id);
                    rest = tail;
                }
                v
            };
            self.desc.push((name.clone(), name[..3].to_string(), grab("DescriptorKey::"), grab("Descriptor::")));
        }
        visit::visit_impl_item_fn(self, f);
        self.func.pop();
    }
    fn visit_block(&mut self, b: &'ast syn::Block) {
        self.scan_block_for_locks(b);
        visit::visit_block(self, b);
    }
    fn visit_expr_unsafe(&mut self, u: &'ast syn::ExprUnsafe) {
        self.unsafe_count += 1;
        visit::visit_expr_unsafe(self, u);
    }
    fn visit_item_static(&mut self, s: &'ast syn::ItemStatic) {
        if skip_attrs(&s.attrs) {
            return;
        }
        let mutable = matches!(s.mutability, syn::StaticMutability::Mut(_));
        self.globals.push((self.file.clone(), self.cur_fn(), s.ident.to_string(), norm(&s.ty), mutable));
        visit::visit_item_static(self, s);
    }
    fn visit_item_const(&mut self, c: &'ast syn::ItemConst) {
        if skip_attrs(&c.attrs) {
            return;
        }
        self.consts.push((self.file.clone(), c.ident.to_string(), norm(&c.expr)));
    }
    fn visit_macro(&mut self, m: &'ast syn::Macro) {
        let n = norm(&m.path);
        if n == "thread_local" || n == "lazy_static" {
            self.macros.push((self.file.clone(), n));
        }
    }
}

impl Scanner {
    fn enter_fn(&mut self, name: &str, is_pub: bool, block: &syn::Block) {
        self.func.push(name.to_string());
        let mut cc = CalleeCollector { out: vec![] };
        cc.visit_block(block);
        // the first call in evaluation order of the first statement (approximation: first collected path call)
        let first = block.stmts.iter().find(|s| !matches!(s, syn::Stmt::Item(_))).map(|s| {
            let mut c1 = CalleeCollector { out: vec![] };
            c1.visit_stmt(s);
            // the innermost call of a nested call expression is evaluated first: take the last path collected along the leftmost spine
            c1.out.iter().filter(|(k, _)| k == "path").map(|(_, n)| n.clone()).collect::<Vec<_>>()
        });
        let first_call = first.and_then(|v| v.last().cloned().or(None));
        self.fns.push(FnInfo {
            file: self.file.clone(),
            name: name.to_string(),
            owner: self.owner.join("::"),
            is_pub,
            callees: cc.out,
            first_call,
            lock_sites: 0,
            writer_of: vec![],
        });
    }
}

fn main() {
    let root = std::env::args().nth(1).unwrap_or_else(|| "/repo".to_string());
    let src = std::path::Path::new(&root).join("src");
    let mut files: Vec<_> = std::fs::read_dir(&src).unwrap().filter_map(|e| e.ok()).map(|e| e.path()).filter(|p| p.extension().map(|x| x == "rs").unwrap_or(false)).collect();
    files.sort();
    let mut sc = Scanner { file: String::new(), owner: vec![], func: vec![], sites: vec![], fns: vec![], globals: vec![], unsafe_count: 0, macros: vec![], consts: vec![], desc: vec![] };
    let mut unknown: Vec<String> = vec![];
    for p in files {
        let fname = p.file_name().unwrap().to_string_lossy().to_string();
        if fname == "verif_hooks.rs" {
            continue;
        }
        let text = std::fs::read_to_string(&p).unwrap();
        match syn::parse_file(&text) {
            Ok(f) => {
                sc.file = fname;
                sc.visit_file(&f);
            }
            Err(e) => unknown.push(format!("{}: {}", fname, e)),
        }
    }
    // JSON
    let mut o = String::from("{\n");
    o.push_str("\"lock_sites\": [\n");
    let items: Vec<String> = sc.sites.iter().map(|s| format!(
        "  {{\"file\": {}, \"func\": {}, \"line\": {}, \"store\": {}, \"kind\": {}, \"other_calls\": [{}], \"nested_locks\": {}, \"mutates\": {}}}",
        json_str(&s.file), json_str(&s.func), s.line, json_str(&s.store), json_str(&s.kind),
        s.other_calls.iter().map(|c| json_str(c)).collect::<Vec<_>>().join(", "), s.nested_locks, s.mutates)).collect();
    o.push_str(&items.join(",\n"));
    o.push_str("\n],\n\"globals\": [\n");
    let items: Vec<String> = sc.globals.iter().map(|(f, c, n, t, m)| format!(
        "  {{\"file\": {}, \"container\": {}, \"name\": {}, \"type\": {}, \"mutable\": {}}}", json_str(f), json_str(c), json_str(n), json_str(t), m)).collect();
    o.push_str(&items.join(",\n"));
    o.push_str(&format!("\n],\n\"unsafe_count\": {},\n\"state_macros\": [{}],\n", sc.unsafe_count,
        sc.macros.iter().map(|(f, n)| format!("[{}, {}]", json_str(f), json_str(n))).collect::<Vec<_>>().join(", ")));
    o.push_str("\"functions\": [\n");
    let items: Vec<String> = sc.fns.iter().map(|f| format!(
        "  {{\"file\": {}, \"owner\": {}, \"name\": {}, \"pub\": {}, \"first_call\": {}, \"lock_sites\": {}, \"writer_of\": [{}], \"callees\": [{}]}}",
        json_str(&f.file), json_str(&f.owner), json_str(&f.name), f.is_pub,
        f.first_call.as_ref().map(|s| json_str(s)).unwrap_or("null".to_string()), f.lock_sites,
        f.writer_of.iter().map(|c| json_str(c)).collect::<Vec<_>>().join(", "),
        f.callees.iter().map(|(k, n)| format!("[{}, {}]", json_str(k), json_str(n))).collect::<Vec<_>>().join(", "))).collect();
    o.push_str(&items.join(",\n"));
    o.push_str("\n],\n\"consts\": [");
    o.push_str(&sc.consts.iter().map(|(f, n, v)| format!("[{}, {}, {}]", json_str(f), json_str(n), json_str(v))).collect::<Vec<_>>().join(", "));
    o.push_str("],\n\"descriptor_fns\": [\n");
    let items: Vec<String> = sc.desc.iter().map(|(n, k, keys, vars)| format!(
        "  {{\"name\": {}, \"kind\": {}, \"keys\": [{}], \"variants\": [{}]}}", json_str(n), json_str(k),
        keys.iter().map(|c| json_str(c)).collect::<Vec<_>>().join(", "), vars.iter().map(|c| json_str(c)).collect::<Vec<_>>().join(", "))).collect();
    o.push_str(&items.join(",\n"));
    o.push_str(&format!("\n],\n\"unknown\": [{}]\n}}\n", unknown.iter().map(|c| json_str(c)).collect::<Vec<_>>().join(", ")));
    print!("{}", o);
}
